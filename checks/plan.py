"""Which functions, lemmas, mutations and bounded stand-ins decide each property."""
from contracts import sort_c, gfa_c, gaf_c, io_c

SORT = "gaftools/cli/sort.py"
CONV = "gaftools/conversion.py"
UTILS = "gaftools/utils.py"
INDEX = "gaftools/cli/index.py"
VIEW = "gaftools/cli/view.py"
GFA = "gaftools/gfa.py"
ORDER = "gaftools/cli/order_gfa.py"
PHASE = "gaftools/cli/phase.py"
STAT = "gaftools/cli/stat.py"
REALIGN = "gaftools/cli/realign.py"
GAFPY = "gaftools/gaf.py"
PLAN = {}

PLAN["C01"] = dict(
    level="proof",
    functions=[(CONV, "merge_nodes"), (CONV, "to_stable"), (CONV, "to_unstable#bare"), (CONV, "to_unstable#intervals"), (UTILS, "search_intervals"), (UTILS, "reverse_cigar#tokens"),
               (CONV, "to_unstable#filter"), (INDEX, "convert_coord#filter"), (GFA, "GFA.get_path")],
    explanation="Base-identity formulation (DESIGN 3.2): a record designates the map path-offset -> (contig, position, orientation). "
                "merge_nodes and the whole of to_stable (token loop, merge loop with ghost prefix arrays S/U/run_of, collapse branch, "
                "field-list output, tag loop) are verified for every path length; the postcondition states, over the OUTPUT LINE's own "
                "fields, that every input node's bases sit at the same path offset in the output segments (split form) or at "
                "start'+offset / end'-1-offset on the reference contig (bare form), that the total is the sum of the output segments / "
                "the contig length, and that the CIGAR is reversed iff the strand flips. search_intervals (window, safety, termination) "
                "and the 3-case overlap filter are verified. to_unstable is verified whole, once per input shape gaftools itself emits (a bare reference-contig "
                "name on either strand; alternating orientation / CONTIG:START-END tokens on the + strand): for every token the emitted walk is exactly "
                "the segments of that contig overlapping the token's interval, ascending for '>' and descending for '<' (ghost lo/hi range, window from "
                "search_intervals, filter, emission loops); interval form: offsets copied; bare form: total = length of the covering segments and, for a "
                "symbolic read offset r, the base designated before and after is the same contig position on both strands; output strand '+', CIGAR "
                "reversed iff the input strand is '-'; columns and tags as in to_stable. get_path delivers the per-contig lists sorted by SO. "
                "reverse_cigar, at the level of the CIGAR's digit / operation runs: the (length, operation) pairs come out in reverse order, each length "
                "still in front of its own operation, none lost (the callers above use reverse_cigar as an uninterpreted function of the string).",
    trusted_base=["meta-argument (not mechanised): equal identity maps => equal spellings (DESIGN 3.2)",
                  "ghost prefix arrays built by X[k+1] = X[k] + d are the prefix sums",
                  "to_unstable: input shapes other than the two above (e.g. '-' strand with an interval path) are outside the contract; that an interval token's covering "
                  "segments tile the interval (needed to read path offsets as base identities in the interval form) is a precondition on the record",
                  "parse laws of CONTIG:START-END tokens (rsplit(':', 1) (split at the last ':', F18), split('-'), ':' in s) as uninterpreted functions"],
    not_applicable_clauses=[],
    mutations=[
        dict(name="merge across orientations", file=CONV, old="if (node1.contig_id != node2.contig_id) or (orient1 != orient2):", new="if (node1.contig_id != node2.contig_id):", expect="merge_nodes", functions=[(CONV, "merge_nodes")]),
        dict(name="touching test swapped", file=CONV, old='    if (orient1 == ">") and (node1.end != node2.start):', new='    if (orient1 == ">") and (node1.start != node2.end):', expect="merge_nodes", functions=[(CONV, "merge_nodes")]),
        dict(name="bisection mid+1 -> mid", file=UTILS, old="mid + 1, end)", new="mid, end)", expect="search_intervals::decreases", functions=[(UTILS, "search_intervals")]),
        dict(name="equivalent mutant mid-1 -> mid stays green", file=UTILS, old="start, mid - 1)", new="start, mid)", expect="green", functions=[(UTILS, "search_intervals")]),
        dict(name="filter case 2 <= -> <", file=CONV, old="elif s < int(query_end) <= e:", new="elif s < int(query_end) < e:", expect="filter-iff-overlap", functions=[(CONV, "to_unstable#filter")]),
        dict(name="reverse_cigar swaps length and operation", file=UTILS, old="        new_cigar += str(all_cigars[i - 2]) + str(all_cigars[i - 1])", new="        new_cigar += str(all_cigars[i - 1]) + str(all_cigars[i - 2])", expect="reverse_cigar", functions=[(UTILS, "reverse_cigar#tokens")]),
        dict(name="to_unstable bare '-' offset", file=CONV, old="            new_end = new_total - new_start\n", new="            new_end = new_total - new_start - 1\n", expect="to_unstable#bare", functions=[(CONV, "to_unstable#bare")]),
        dict(name="to_unstable reverses the wrong orientation", file=CONV, old='        if orient == "<":\n            for i in reversed(nodes_tmp):', new='        if orient == ">":\n            for i in reversed(nodes_tmp):', expect="to_unstable", functions=[(CONV, "to_unstable#bare")]),
        dict(name="collapse offset off by one", file=CONV, old="gaf_line.path_length - gaf_line.path_end\n", new="gaf_line.path_length - gaf_line.path_end - 1\n", expect="to_stable", functions=[(CONV, "to_stable")], quick=False),
        dict(name="harmless: rename-free reorder of independent inits", file=CONV, old="    reverse_flag = False\n    new_total = None\n", new="    new_total = None\n    reverse_flag = False\n", expect="green", functions=[(CONV, "to_stable")], quick=False),
    ],
)

PLAN["C08"] = dict(
    level="proof",
    functions=[(SORT, "compare_gaf"), (SORT, "process_alignment#body"), (SORT, "sort#passes")],
    extra={(SORT, "compare_gaf"): sort_c.relational_obligations},
    explanation="compare_gaf is verified against the lexicographic key (untagged, BO, NO, start, offset) on every path, and antisymmetry / "
                "transitivity / totality are proved directly on the code (three symbolic records). process_alignment's body (anchor = last node iff "
                "strictly more tagged scaffold steps are '<' than '>', (BO, NO) of the anchor, start on the anchor side) is verified for every path length. "
                "sort#passes (both passes of sort(), shared with C09 / C10) ties the two together: the entry stored for every input record holds the keys "
                "process_alignment computed for THAT record's fields (no state carried from one line to the next) and the list is sorted with compare_gaf.",
    trusted_base=["assumed: list.sort(key=cmp_to_key(f)) yields a permutation sorted w.r.t. f whenever f is a strict total order (CPython)"],
    not_applicable_clauses=[],
    mutations=[
        dict(name="NO compared via BO again", file=SORT, old="    if al1.NO > al2.NO:\n        return 1\n", new="    if al1.BO > al2.BO:\n        return 1\n", expect="compare_gaf"),
        dict(name="untagged sorted first", file=SORT, old="    if al1.BO == -1 and al2.BO != -1:\n        return 1\n", new="    if al1.BO == -1 and al2.BO != -1:\n        return -1\n", expect="compare_gaf"),
        dict(name="drop start comparison", file=SORT, old="    if al1.start < al2.start:\n        return -1\n", new="", expect="compare_gaf"),
        dict(name="harmless: elif->if after return", file=SORT, old="    if al2.BO == -1 and al1.BO != -1:\n        return -1\n", new="    elif al2.BO == -1 and al1.BO != -1:\n        return -1\n", expect="green"),
    ],
)

PLAN["C05"] = dict(
    level="proof",
    functions=[(VIEW, "search"), (VIEW, "get_unstable#body")],
    explanation="get_unstable (region parsing, per-contig filter / sort / cache of the index keys, one search per region, concatenation) returns, for any "
                "number of regions, exactly the ids of the indexed nodes whose interval intersects some region: every returned id belongs to such a node "
                "(ghost witness) and every such node's id is returned (ghost position); it establishes search's precondition (keys of one contig sorted by "
                "start and pairwise disjoint) from the validity of the index. view.search (bisection for the first indexed node ending after the region start, then forward scan) returns exactly the "
                "indexed nodes of the contig whose interval intersects the closed region [a,b], as a contiguous run of the sorted list; "
                "all list accesses in bounds; both loops terminate (decreases). The composition with --node (C04's fragment) on the CLI is covered by the bounded stand-in.",
    trusted_base=["the view index has non-empty intervals and distinct nodes of one contig are disjoint (valid rGFA; C03)",
                  "str.rsplit(':', 1) / split('-') as uninterpreted functions; list(filter(P, L)), list.sort(key=), dict.keys() contracts (assumed)"],
    mutations=[
        dict(name="bisection <= -> <", file=VIEW, old="if node_list[m][3] <= q_s:", new="if node_list[m][3] < q_s:", expect="search"),
        dict(name="scan <= -> <", file=VIEW, old="node_list[pos][2] <= q_e:", new="node_list[pos][2] < q_e:", expect="search"),
        dict(name="e = m - 1", file=VIEW, old="            e = m\n", new="            e = m - 1\n", expect="search"),
        dict(name="region end replaced by its start", file=VIEW, old="        node = search([contig[n], start[n], end[n]], node_list)", new="        node = search([contig[n], start[n], start[n]], node_list)", expect="get_unstable", functions=[(VIEW, "get_unstable#body")], quick=False),
    ],
)

PLAN["C14"] = dict(
    level="proof",
    functions=[(GFA, "GFA.path_exists"), (GFA, "GFA.extract_path"), ("gaftools/cli/find_path.py", "run#read-paths"), ("gaftools/cli/find_path.py", "run#write-records")],
    lemmas=[gfa_c.lemma_reversal, gfa_c.lemma_rev_comp],
    explanation="path_exists (4-row orientation table, early return, inner scan over the adjacency set) returns True iff every consecutive "
                "pair of steps is a link of the graph in the matching orientations, stated against the GFA link semantics (leave a through "
                "its end for '>' / start for '<', enter b at its start for '>' / end for '<'); lemma: under the symmetric-adjacency "
                "invariant (C15) a step is a link iff the reversed step is, hence the reversed walk is accepted iff the walk is. "
                "extract_path returns '' unless every consecutive pair of steps is a link, and otherwise the per-step pieces in order (the node's sequence "
                "for '>', its reverse complement for '<'). find_path.run: the file branch builds one (path, spelled sequence) entry per input line, in order, each "
                "spelled from its own line; the writer emits one record per entry in order (FASTA: header '>seq_<path>' then the sequence). "
                "rev_comp at character level (lemma_rev_comp): its return expression and the module-level maketrans table are re-read from the source and "
                "evaluated symbolically on strings of every length; length kept, the base at i is the Watson-Crick complement of the base at n-1-i, "
                "rev_comp(rev_comp(s)) == s, rev_comp(p + q) == rev_comp(q) + rev_comp(p) (so the reversed walk spells the reverse complement).",
    trusted_base=["re.findall('[><][^><]+', path) tokenises the path (assumed)",
                  "CPython semantics of s[::-1], str.translate and two-argument str.maketrans as encoded in lemma_rev_comp (assumed); a rev_comp body outside "
                  "that subset is UNDECIDED deductively (exit 2) and left to the bounded stand-in (all strings up to length 4 over ACGTNacgt-, lengths around powers of two up to 2^20)",
                  "''.join(pieces) is injective on piece lists (untok(strjoin(l)) == l); inside extract_path rev_comp is the uninterpreted function that the lemma characterises: assumed link between the two",
                  "find_path.run is verified as two statement-range fragments (reader = list of lines, writer = list of printed records); open()/sys.stdout plumbing between them: BOUNDED stand-in only"],
    mutations=[
        dict(name="find_path spells the first line for every line", file="gaftools/cli/find_path.py", old="            path_seqs.append(graph.extract_path(nodes[-1]))", new="            path_seqs.append(graph.extract_path(nodes[0]))", expect="read-paths", functions=[("gaftools/cli/find_path.py", "run#read-paths")]),
        dict(name="swap two table rows", file=GFA, old='            (">", "<"): ("end", 1),\n            ("<", ">"): ("start", 0),', new='            (">", "<"): ("start", 0),\n            ("<", ">"): ("end", 1),', expect="path_exists"),
        dict(name="row << wrong side", file=GFA, old='("<", "<"): ("start", 1)', new='("<", "<"): ("start", 0)', expect="path_exists"),
        dict(name="rev_comp forgets to reverse", file="gaftools/utils.py", old="seq[::-1].translate(complement)", new="seq.translate(complement)", expect="rev_comp", functions=[("lemma", "rev_comp")]),
        dict(name="complement table pairs G with G", file="gaftools/utils.py", old='str.maketrans("ACGT", "TGCA")', new='str.maketrans("ACGT", "TCGA")', expect="rev_comp", functions=[("lemma", "rev_comp")]),
        dict(name="table maps U to A but not back", file="gaftools/utils.py", old='str.maketrans("ACGT", "TGCA")', new='str.maketrans("ACGTU", "TGCAA")', expect="rev_comp::involution", functions=[("lemma", "rev_comp")]),
        dict(name="harmless: complement first, then reverse", file="gaftools/utils.py", old="seq[::-1].translate(complement)", new="seq.translate(complement)[::-1]", expect="green", functions=[("lemma", "rev_comp")]),
        dict(name="harmless: lower-case bases complemented too", file="gaftools/utils.py", old='str.maketrans("ACGT", "TGCA")', new='str.maketrans("ACGTacgt", "TGCAtgca")', expect="green", functions=[("lemma", "rev_comp")]),
        dict(name="forward steps reverse-complemented", file=GFA, old='            if n.startswith(">"):\n                seq.append(self.nodes[n[1:]].seq)', new='            if n.startswith("<"):\n                seq.append(self.nodes[n[1:]].seq)', expect="extract_path", functions=[(GFA, "GFA.extract_path")]),
    ],
)

_NODE_METHODS = [(GFA, "Node." + m) for m in ("add_from_start", "add_from_end", "remove_from_start", "remove_from_end")]
PLAN["C15"] = dict(
    level="other",
    functions=_NODE_METHODS + [(GFA, "GFA.add_edge"), (GFA, "GFA.remove_edge"), (GFA, "GFA.find_component"), (GFA, "GFA.all_components"), (GFA, "GFA.dfs"),
                              (GFA, "GFA.remove_node"), (GFA, "GFA.add_node"), (GFA, "Node.neighbors#body")],
    lemmas=[gfa_c.node_init_lemma],
    explanation="PROVED (deductive, unbounded): (0) remove_node (both loops, ghost enumeration of the two sides) removes exactly that node and exactly "
                "the links to it at every other node, on both sides, self-links included, keeps the adjacency invariant, and leaves no stored link "
                "tags that mention the deleted node (edge_tags only holds keys of existing links: an invariant add_edge, remove_edge and remove_node "
                "each preserve, witnessed by the ghost map tagov); add_node adds a node "
                "without links (or changes nothing when the id exists; also on its ValueError / AssertionError exits) and keeps the invariant. (1) the representation invariant of the adjacency (symmetric between the two ends of every link, no "
                "dangling ids) is preserved by add_edge and remove_edge, with whole-view postconditions (the adjacency changes by exactly "
                "that link at both ends, self-links included, node set unchanged); histories follow by induction over operations. "
                "(2) find_component returns a set that contains the start node, is closed under adjacency, is disjoint from everything visited "
                "before, and lies inside one class of EVERY equivalence relation that contains the links (uninterpreted labelling comp, constant along links: hence inside the "
                "true component); closed + inside = exactly the component. (3) all_components: the returned sets cover the node set (ghost map "
                "comp_of), are pairwise disjoint, each closed under adjacency and inside one class of every link-closed equivalence, and the "
                "visited flags are reset. (4) dfs: the returned list starts at the start node, has no repeated node, is closed under adjacency and "
                "stays inside the component (all three exits of the function). Both work-list loops (find_component, dfs) TERMINATE: lexicographic "
                "measure (nodes not yet collected, length of the work list), using the insertion law of cardinality and one instance of its monotonicity. "
                "BOUNDED only: biccs (iterative Hopcroft-Tarjan): exhaustive comparison with the definitions on all small graphs "
                "(see coverage.bounded); the same enumeration also re-checks everything above on the real objects.",
    trusted_base=["Node.neighbors caller view = Skolem form (position function nbrpos) of the existential postcondition verified on its body (Node.neighbors#body)",
                  "GFA.set_visited caller view (body mutates nodes through dict.values(): aliasing not modelled)",
                  "is_correct_tag caller view (an accepted tag splits into three parts); Node(...) constructor model (compared with Node.__init__ on every run)",
                  "remove_node: the contig_to_nodes clean-up is not modelled (alias_ok), nothing is claimed about contig_to_nodes",
                  "cardinality of finite sets: uninterpreted, with the insertion law card(S + {x}) = card(S) + [x not in S] and the instance 'a set of nodes has at most as many elements as the graph has nodes' (card_mono), assumed at the two loop heads",
                  "biccs: BOUNDED stand-in only (never counted as proved)"],
    not_applicable_clauses=["biccs beyond the enumerated bound"],
    mutations=[
        dict(name="add_edge second end on the wrong side", file=GFA, old="        if node2_dir == 0:\n            self[node2].add_from_start(node1, node1_dir, overlap)", new="        if node2_dir == 1:\n            self[node2].add_from_start(node1, node1_dir, overlap)", expect="add_edge", functions=[(GFA, "GFA.add_edge")]),
        dict(name="remove_edge forgets the second end", file=GFA, old="        if side2 == 0:\n            self.nodes[n2].remove_from_start(n1, side1, overlap)\n        else:\n            self.nodes[n2].remove_from_end(n1, side1, overlap)", new="        if side2 == 0:\n            self.nodes[n2].remove_from_start(n1, side1, overlap)", expect="remove_edge", functions=[(GFA, "GFA.remove_edge")], quick=False),
        dict(name="find_component stops at the first visited neighbour", file=GFA, old="                if not self.nodes[n].visited:\n                    queue.append(n)", new="                if self.nodes[n].visited:\n                    break\n                queue.append(n)", expect="find_component", functions=[(GFA, "GFA.find_component")]),
        dict(name="all_components forgets to reset the flags", file=GFA, old="        self.set_visited(False)\n        return connected_comp", new="        return connected_comp", expect="all_components", functions=[(GFA, "GFA.all_components")]),
        dict(name="remove_edge keeps the tags stored by the other end", file=GFA, old="        self.edge_tags.pop((n2, side2, n1, side1), None)\n", new="", expect="remove_edge", functions=[(GFA, "GFA.remove_edge")]),
        dict(name="remove_node unlinks the end side from the wrong side", file=GFA, old="            self.remove_edge((n_id, 1, n_end[0], n_end[1], overlap))", new="            self.remove_edge((n_id, 0, n_end[0], n_end[1], overlap))", expect="remove_node", functions=[(GFA, "GFA.remove_node")]),
        dict(name="add_node replaces an existing node", file=GFA, old="        if node_id not in self:\n            node = Node(node_id)", new="        if True:\n            node = Node(node_id)", expect="add_node", functions=[(GFA, "GFA.add_node")], quick=False),
        dict(name="dfs re-expands a node it has already output (never terminates on a cycle)", file=GFA, old="            else:\n                continue\n            for neighbour in self[s].neighbors():", new="            for neighbour in self[s].neighbors():", expect="dfs", functions=[(GFA, "GFA.dfs")]),
        dict(name="dfs follows only the first neighbour", file=GFA, old="            for neighbour in self[s].neighbors():\n                stack.append(neighbour)", new="            for neighbour in self[s].neighbors()[:1]:\n                stack.append(neighbour)", expect="dfs", functions=[(GFA, "GFA.dfs")], quick=False),
    ],
)

PLAN["C07"] = dict(
    level="other",
    functions=[(GFA, "GFA.write_gfa#L-line-from-start"), (GFA, "GFA.write_gfa#L-line-from-end"), (GFA, "GFA.write_gfa#both-loops"), (GFA, "GFA.write_gfa#links-of-one-node"),
               (GFA, "GFA.sort_bo_no"), (GFA, "GFA.add_edge"), (GFA, "GFA.add_node"), (GFA, "GFA.read_graph#s-lines"), (GFA, "GFA.read_graph#l-lines")],
    lemmas=[gfa_c.lemma_exactly_once],
    explanation="PROVED: read_graph's two loops over the lines of the file (any number, any interleaving of record types): every S line becomes a node "
                "(first occurrence of an id wins), L lines are collected in file order and nothing else is, every L line between existing segments "
                "becomes a link stored at both ends with the sides of E_DIR and the overlap of its '<n>M' column, its tags (or the [0] sentinel) under the "
                "declaring end's key; every new link comes from such a line; links already there are kept; the adjacency invariant and 'link tags "
                "only for existing links' hold afterwards. sort_bo_no (three loop nests: bucket by BO, sort each bucket by NO, concatenate in sorted BO order) returns every node of the set "
                "exactly once, ascending in (BO, NO) - so, with the next fragment, the S lines of order_gfa's output are in (BO, NO) order. For one node, the link lines written are exactly one L line (fields, signs, overlap, tags or none for the [0] sentinel) per entry "
                "of its start set, then of its end set, whose neighbour is among the written nodes and whose tags are stored under THIS end's key - "
                "nothing else (ghost enumerations of the two sets, prefix counts, source map); with the edge_tags state in which every link has "
                "non-empty tags under exactly one of its two keys (what read_graph builds when each link is declared by one L line: precondition, "
                "bounded-checked) every link between written nodes is emitted from exactly one end (lemma). add_node stores every tag of an S line under its name as (type, value), nothing else (a repeated name keeps its last "
                "occurrence), and links tags under the key of the declaring end (add_edge). Both output loops of write_gfa as one fragment (any number of nodes and links): every S line precedes every L line, there is exactly "
                "one S line per listed node that exists in the graph, in the listed order (ghost prefix count), carrying that node's id. The L-line emitted by write_gfa for an adjacency entry carries orientation signs that decode through E_DIR (the table "
                "add_edge uses) to exactly the stored sides, with id, overlap and tags in place (both the start-side and the end-side branch); "
                "add_edge stores exactly the declared link at both ends. BOUNDED: exactly-once emission per declared link (edge_tags keying), "
                "S-before-L, (BO,NO) order, tag round trip, CSV rows, load->write->independent-reader equality.",
    trusted_base=["'\\t'.join / split round trip (assumed)", "Node.to_gfa_line caller view (an S line with the node id second); nodes[k].id == k (representation invariant, precondition)",
                  "read_graph is verified as two statement-range fragments over the list of lines (opening the plain / gzip file, int() of a malformed overlap, and that no link is declared twice - needed for 'tags under exactly one key' - are outside them); CSV: BOUNDED stand-in only",
                  "f(*lst, x): the list is spread over the remaining positional parameters (TypeError obligation on its length); an int stored in a string-typed list is a reserved code (int_code / code_int)",
                  "sort_bo_no: BO / NO values are the ints order_gfa stores (('i', <int>) tag values); sorted() = permutation + order (assumed); prefix offsets OFF defined over the sorted keys",
                  "an int stored in a string-typed list (the [0] sentinel) is represented by a reserved string code"],
    mutations=[
        dict(name="add_node swaps tag type and value", file=GFA, old="                self[node_id].tags[tag[0]] = (tag[1], tag[2])", new="                self[node_id].tags[tag[0]] = (tag[2], tag[1])", expect="add_node", functions=[(GFA, "GFA.add_node")], quick=False),
        dict(name="read_graph keeps an L line when only one of its segments exists", file=GFA, old="            if e[0] not in self or e[2] not in self:", new="            if e[0] not in self and e[2] not in self:", expect="read_graph#l-lines", functions=[(GFA, "GFA.read_graph#l-lines")]),
        dict(name="read_graph takes the sequence column as the segment id", file=GFA, old="                    self.add_node(line[1], line[2], line[3:])", new="                    self.add_node(line[2], line[2], line[3:])", expect="read_graph#s-lines", functions=[(GFA, "GFA.read_graph#s-lines")], quick=False),
        dict(name="sort_bo_no sorts the buckets by BO instead of NO", file=GFA, old='                separate_bubbles[bo], key=lambda x: int(self.nodes[x].tags["NO"][1])', new='                separate_bubbles[bo], key=lambda x: int(self.nodes[x].tags["BO"][1])', expect="sort_bo_no", functions=[(GFA, "GFA.sort_bo_no")]),
        dict(name="write_gfa looks the end-side tags up under the start-side key", file=GFA, old="                        tags = self.edge_tags[(n1, 1, n[0], n[1])]", new="                        tags = self.edge_tags[(n1, 0, n[0], n[1])]", expect="links-of-one-node", functions=[(GFA, "GFA.write_gfa#links-of-one-node")]),
        dict(name="write_gfa writes an S line after the links of a node", file=GFA, old='            for e in edges:\n                f.write(e + "\\n")\n\n        f.close()', new='            for e in edges:\n                f.write(e + "\\n")\n            f.write(self.nodes[n1].to_gfa_line() + "\\n")\n\n        f.close()', expect="write_gfa#both-loops", functions=[(GFA, "GFA.write_gfa#both-loops")]),
        dict(name="swap sign in one write_gfa branch", file=GFA, old='"\\t".join(["L", str(n1), "-", str(n[0]), "+", overlap] + tags)', new='"\\t".join(["L", str(n1), "-", str(n[0]), "-", overlap] + tags)', expect="write_gfa", functions=[(GFA, "GFA.write_gfa#L-line-from-start")]),
    ],
)

_SORT_FUNCS = [(SORT, "sort#passes"), (SORT, "process_alignment#body"), (SORT, "write_to_file")]
_SORT_FUNCS_C09 = _SORT_FUNCS + [(GFA, "GFA.add_node")]  # the sn:Z value is the SN tag as add_node stored it
PLAN["C09"] = dict(
    level="proof",
    functions=_SORT_FUNCS_C09,
    explanation="Both passes of sort() against the abstract reader/writer contract: pass 1 records exactly one (offset, keys) entry per input "
                "record with the offset taken before the read; list.sort yields a permutation (ghost maps both ways); pass 2 writes, for the "
                "t-th sorted entry, the input line at that offset (rstrip'ed) followed by exactly bo:i:<BO>, sn:Z:<sn>, iv:i:<inv>; hence the "
                "output is a permutation of the input records, each unchanged plus three tags. process_alignment's body is verified for every "
                "path length: anchor = last node iff strictly more tagged scaffold steps are '<' than '>', (BO,NO) of the anchor, start on the "
                "anchor side, iv = 1 iff both orientations occur among tagged scaffold steps, sn = SN of the first rank-0 node or 'unknown'; add_node "
                "stores every S-line tag whole as (type, value) (split at the first two ':' only), so that SN value is the contig name as written.",
    trusted_base=["reader contract (tell/readline/seek with opaque strictly increasing offsets) for text files and BGZFile: assumed, exercised by the bounded stand-in",
                  "line.rstrip().split('\\t') = field list of the record (assumed)", "bytes branch (decode) equals the str branch: not modelled, bounded only"],
    mutations=[
        dict(name="write NO as bo:i", file=SORT, old="alignment.BO, alignment.sn, alignment.inv)", new="alignment.NO, alignment.sn, alignment.inv)", expect="sort#passes", functions=[(SORT, "sort#passes")]),
        dict(name="seek off+1", file=SORT, old="            reader.seek(off)", new="            reader.seek(off + 1)", expect="sort#passes", functions=[(SORT, "sort#passes")], quick=False),
        dict(name="anchor test < -> <=", file=SORT, old='    if orient_list.count(">") < orient_list.count("<"):', new='    if orient_list.count(">") <= orient_list.count("<"):', expect="process_alignment", functions=[(SORT, "process_alignment#body")]),
        dict(name="scaffold filter inverted", file=SORT, old="        if no_tag != 0:\n            continue", new="        if no_tag == 0:\n            continue", expect="process_alignment", functions=[(SORT, "process_alignment#body")]),
    ],
)
PLAN["C10"] = dict(
    level="proof",
    functions=[(SORT, "sort#passes")],
    explanation="Index bookkeeping of pass 2 (ghost first/last position per contig): the pickled dict has no 'unknown' key whether or not the bucket "
                "existed, an entry for exactly the contigs that occur among the written records, holding writer.tell() taken before the first and "
                "the last record of that contig; every record of the contig lies between them. The choice of the index path in run_sort and the "
                "resolution of the offsets in real plain/BGZF files are covered by the bounded stand-in.",
    trusted_base=["writer contract: tell() before the k-th write is the offset at which a reader finds the k-th record (assumed; exercised on real plain/BGZF output by the bounded stand-in)",
                  "pickle round trip (assumed)"],
    mutations=[
        dict(name="last offset only in else", file=SORT, old="                    index_dict[alignment.sn][0] = out_off\n                    index_dict[alignment.sn][1] = out_off", new="                    index_dict[alignment.sn][0] = out_off", expect="sort#passes"),
        dict(name="pop without default", file=SORT, old='index_dict.pop("unknown", None)', new='index_dict.pop("unknown")', expect="sort#passes"),
    ],
)

PLAN["C03"] = dict(
    level="proof",
    functions=[(INDEX, "run#index-loop"), (INDEX, "convert_coord#filter"), (INDEX, "convert_coord#bare"), (INDEX, "convert_coord#intervals"),
               (UTILS, "search_intervals"), (GFA, "GFA.get_path")],
    explanation="GFA.get_path hands over the contig's segments sorted by SO (all of them when called with throw_warning=False, as index and view do) - "
                "the sortedness precondition of search_intervals. The indexing loop of index.run against the abstract reader contract, for files of any length: ghost witnesses make both "
                "directions explicit without existentials: (A) for every record j and every node p it traverses (convert_coord(record) for "
                "stable GAFs, the names of the path column otherwise), the entry keyed (id, SN, SO, SO+LN) of that node lists off(j); (B) every "
                "offset listed under a key is off(j) of a record j that traverses that key's node; no empty entry; the offset is the tell() taken "
                "BEFORE the readline() that returned the record. For stable records the set of traversed nodes is convert_coord's: its 3-case "
                "filter is proved equivalent to interval overlap and search_intervals returns a window containing every overlapping segment "
                "(never (-1,-1), in bounds, terminating); the WHOLE of convert_coord is verified once per shape of the stable path column (#bare: "
                "one contig name with the interval in columns 8/9; #intervals: alternating orientation / CONTIG:START-END tokens): it returns the ids "
                "of exactly those segments of each token's contig whose stable interval overlaps the token's interval (ghost lo/hi/OUT), in order. "
                "The seek/pickle round trip on real plain/BGZF files is covered by the bounded stand-in.",
    trusted_base=["reader contract (tell/readline/seek) for text files and pysam BGZFile: assumed, exercised by the bounded stand-in",
                  "re.split('>|<', path)[1:] = node names of the path; line.rstrip().split('\\t') = fields (assumed)",
                  "convert_coord is verified for the two path shapes gaftools itself emits; paths mixing bare names and intervals: BOUNDED stand-in only",
                  "the index loop uses convert_coord as an uninterpreted deterministic function; the link to its verified postcondition is by name (same function)",
                  "definitional extensions K(j,p) / NT(j) name the key / number of traversed nodes of record j"],
    mutations=[
        dict(name="tell() after readline()", file=INDEX, old="        offset = gaf_file.tell()\n        mapping = gaf_file.readline()", new="        mapping = gaf_file.readline()\n        offset = gaf_file.tell()", expect="run#index-loop", functions=[(INDEX, "run#index-loop")]),
        dict(name="drop first node of the path", file=INDEX, old='alignment = list(re.split(">|<", val[5]))[1:]', new='alignment = list(re.split(">|<", val[5]))[2:]', expect="run#index-loop", functions=[(INDEX, "run#index-loop")], quick=False),
        dict(name="convert_coord skips the first segment of the window", file=INDEX, old="        for node in ref[query_contig_name][start : end + 1]:", new="        for node in ref[query_contig_name][start : end + 1][1:]:", expect="convert_coord", functions=[(INDEX, "convert_coord#bare")]),
        dict(name="convert_coord reads the wrong start column", file=INDEX, old="            query_start = line[7]\n", new="            query_start = line[6]\n", expect="convert_coord", functions=[(INDEX, "convert_coord#bare")], quick=False),
        dict(name="filter case 1 <= -> <", file=INDEX, old='                <= int(query_start)\n                < int(node.tags["SO"][1]) + int(node.tags["LN"][1])', new='                < int(query_start)\n                < int(node.tags["SO"][1]) + int(node.tags["LN"][1])', expect="filter-iff-overlap", functions=[(INDEX, "convert_coord#filter")]),
    ],
)

PLAN["C04"] = dict(
    level="proof",
    functions=[(VIEW, "run#select-offsets")],
    explanation="Selection fragment of view.run (--node mode), given an index with C03's postcondition (one key per node id, no empty entry): the offset "
                "list is strictly increasing (so each selected record once, in file order, offsets being strictly increasing in the file), its elements "
                "are exactly the offsets listed for the named nodes that have an index entry, a node without entry contributes nothing and raises "
                "nothing, and CommandLineError is raised only when no named node has an entry. Rendering of the selected records (Alignment.__str__ / "
                "converters), equality with convert-then-select and the whole-file branch are covered by the bounded stand-in; tag verbatim-ness is C16.",
    trusted_base=["sorted(set) / sorted(list, key=) / dict iteration contracts (assumed)", "pickle.load returns the dict index.run dumped (assumed)",
                  "output loops (read_line + print) and --format composition: BOUNDED stand-in only"],
    mutations=[
        dict(name="unaligned-node guard removed", file=VIEW, old="            if nd in ind_dict:\n                offsets.update(ind[ind_dict[nd]])", new="            offsets.update(ind[ind_dict[nd]])", expect="run#select-offsets"),
        dict(name="first named node skipped", file=VIEW, old="        for nd in nodes:\n            # extracting", new="        for nd in nodes[1:]:\n            # extracting", expect="run#select-offsets", quick=False),
    ],
)

PLAN["C06"] = dict(
    level="other",
    functions=[(ORDER, "decompose_and_order#numbering"), (ORDER, "decompose_and_order#orientation"), (GFA, "GFA.graph_from_comp"), (GFA, "GFA.dfs")],
    explanation="PROVED (relative to the decomposition handed over by biccs, which is bounded-checked in C15): graph_from_comp builds a sub-graph with "
                "exactly the component's nodes, their adjacency and tags, well-formed because the component is closed under adjacency; dfs visits every "
                "node of its component exactly once starting at the start node (so the traversal of a line-shaped scaffold graph from a degree-1 node "
                "lists every chain element once). The numbering loop gives the "
                "t-th chain element BO = bo_start + t, scaffold nodes NO = 0, the inner nodes of a bubble that BO and NO = 1 + their rank in "
                "python's sorted() of the ids, and returns bo_start + chain length (so successive chromosomes get consecutive, disjoint ranges "
                "in request order); the orientation step leaves scaffold offsets ascending and reverses the traversal iff the end offsets were "
                "descending. BOUNDED: that the traversal handed over is the bubble chain (biccs/dfs/census), independence of line order, of "
                "PYTHONHASHSEED and of earlier BO/NO tags, end-to-end on generated chain graphs with a definitional oracle.",
    trusted_base=["biccs / scaffold-graph census deliver the chain (elements distinct, bubbles disjoint; dfs order along a line graph = chain order): assumed here, BOUNDED in C15/C06",
                  "graph_from_comp's nodes share their adjacency sets and tag dictionaries with the original graph (aliasing, not modelled; the copy is only read)",
                  "python string order is an uninterpreted strict total order str_lt; sorted(set) lists the members increasingly (assumed)",
                  "single-scaffold end-bubble offsets (min over a comprehension): BOUNDED only"],
    not_applicable_clauses=["biccs beyond the enumerated bound (inherited from C15)"],
    mutations=[
        dict(name="graph_from_comp swaps the two sides", file=GFA, old="            new_node.start = self[n].start\n            new_node.end = self[n].end", new="            new_node.start = self[n].end\n            new_node.end = self[n].start", expect="graph_from_comp", functions=[(GFA, "GFA.graph_from_comp")]),
        dict(name="NO starts at 0", file=ORDER, old="                node_order[n] = (bo, i + 1)", new="                node_order[n] = (bo, i)", expect="numbering"),
        dict(name="bo incremented only for scaffold nodes", file=ORDER, old="            assert False\n        bo += 1", new="            assert False\n        if node_type == \"s\":\n            bo += 1", expect="numbering"),
        dict(name="traversal not reversed", file=ORDER, old="        traversal.reverse()\n        traversal_scaffold_only.reverse()", new="        traversal_scaffold_only.reverse()", expect="orientation"),
    ],
)

PLAN["C18"] = dict(
    level="other",
    functions=[(ORDER, "run_order_gfa#skip-frame"), (ORDER, "decompose_and_order#numbering")],
    explanation="PROVED: when decompose_and_order returns the skip value, the chromosome loop of run_order_gfa leaves the running BO, the bubble total "
                "and the lists of files to concatenate untouched (frame), so the next chromosome is numbered from the same bo_start as in a run "
                "without the skipped one; the numbering is a function of (chain, bo_start) only. BOUNDED: that every non-chain shape (branching "
                "tips, >= 3 articulation points on a cycle, single block) makes decompose_and_order return the skip value without raising, and "
                "byte-identity of the other chromosomes' files at every position of --chromosome_order.",
    trusted_base=["census / bubble-less-block branch of decompose_and_order returns the skip value for every non-chain shape: BOUNDED stand-in only"],
    mutations=[
        dict(name="bo = new_bo made unconditional", file=ORDER, old="        if scaffold_nodes:\n            bo = new_bo", new="        bo = new_bo\n        if scaffold_nodes:", expect="skip-frame"),
    ],
)

PLAN["C16"] = dict(
    level="proof",
    functions=[(GAFPY, "GAF.parse_gaf_line"), (GAFPY, "Alignment.__str__"), (CONV, "to_stable")],
    lemmas=[gaf_c.regex_lemmas],
    explanation="Character level (z3 sequence/regex theory, on the regex literals re-read from the working tree): every field that is well-formed per the "
                "project's own tag grammar (utils.tag_regex) is selected by parse_gaf_line's prefix regex, and a selected field splits at position 5 "
                "into TAG:TYPE: and VALUE with prefix + suffix == field. Field level (for every number of optional fields): parse_gaf_line keeps "
                "exactly the selected fields other than ds:Z:, keyed TAG:TYPE: in order of first occurrence, with the value verbatim "
                "(key + value == the input field), takes optional fields from column 13 on only, sets cigar to the last cg:Z: value, and "
                "is_primary iff no tp:A: field has a value other than P/p; Alignment.__str__ and to_stable's tail print the twelve columns and then "
                "one field key+value per tag in stored order, inventing cg:Z: only when a CIGAR exists. A second occurrence of a TAG:TYPE is "
                "dropped: that is the recorded known finding 'repeated-tag' (reported by the bounded stand-in as KNOWN-FINDING).",
    trusted_base=["s[:k] + s[k:] == s; '%s' % x formats; split/join of tab-separated lines (assumed)", "to_unstable's and wfa_alignment's printing tails: BOUNDED stand-in only",
                  "name cut at the first blank: words_of(name)[0] (assumed str.split)"],
    not_applicable_clauses=["repeated TAG:TYPE fields: known finding 'repeated-tag' (known_findings.json), not repaired"],
    mutations=[
        dict(name="selector loses digit in tag name", file=GAFPY, old='if re.match("[A-Za-z][A-Za-z0-9]:[AifZHB]:", k):', new='if re.match("[A-Za-z][A-Za-z]:[AifZHB]:", k):', expect="well-formed-field-is-selected"),
        dict(name="value cut one char late", file=GAFPY, old="                val = k[5:]", new="                val = k[6:]", expect="parse_gaf_line", functions=[(GAFPY, "GAF.parse_gaf_line")]),
        dict(name="mandatory columns scanned again", file=GAFPY, old="        for k in fields[12:]:", new="        for k in fields[11:]:", expect="parse_gaf_line", functions=[(GAFPY, "GAF.parse_gaf_line")]),
        dict(name="cg invented again", file=GAFPY, old='        if self.cigar or "cg:Z:" in self.tags:\n            self.tags["cg:Z:"] = self.cigar', new='        self.tags["cg:Z:"] = self.cigar', expect="__str__", functions=[(GAFPY, "Alignment.__str__")]),
    ],
)

PLAN["C19"] = dict(
    level="proof",
    functions=[(STAT, "run_stat#loop"), (STAT, "run_stat#averages"), (GAFPY, "GAF.parse_gaf_line")],
    explanation="Main loop of run_stat for files of any length (empty files and files without a primary record included), against ghost prefix arrays that DEFINE the figures (NP = primary records, SB = sum of "
                "residue matches, SQ = sum of MAPQ, per-operation run counts with a second-level prefix over the (length, op) pairs of each CIGAR, "
                ">= 50 variants, single-run CIGARs): total = primary + secondary with primary = NP; aligned bases, MAPQ sum and every CIGAR counter "
                "equal their defining prefix value; the read table holds exactly the names of primary records, each read's best map ratio / "
                "identity is an upper bound over its primary records and is attained (ghost arg-max). All figures are functions of the multiset "
                "of records except the float sums; the record count printed is the number of records (0 for an empty file). The averaging tail sums the "
                "per-read maxima over the reads and divides by their number only when there is one (no division by zero; 0.0 otherwise). is_primary is "
                "derived from the tp:A: field by parse_gaf_line (verified). Rounding / printing and order-invariance of the printed report are covered "
                "by the bounded stand-in.",
    trusted_base=["floats as reals with uninterpreted division fdiv; float comparison = order of the reals (no NaN)",
                  "itertools.groupby(cigar, str.isdigit) gives the maximal digit / non-digit runs (assumed)", "ghost prefix arrays built by X[k+1] = X[k] + d are the sums / counts",
                  "round(), print, the mean mapping quality line: BOUNDED stand-in only"],
    not_applicable_clauses=["exact floating-point rounding of sums under reordering (floats treated as reals)"],
    mutations=[
        dict(name="averages divide by the number of reads unconditionally (F17 again)", file=STAT, old="    if len(reads) > 0:\n        avg_highest_seq_identity /= len(reads)", new="    if True:\n        avg_highest_seq_identity /= len(reads)", expect="run_stat#averages", functions=[(STAT, "run_stat#averages")]),
        dict(name="secondary counted without continue", file=STAT, old="            total_secondary += 1\n            continue", new="            total_secondary += 1", expect="run_stat", functions=[(STAT, "run_stat#loop")], quick=False),
        dict(name=">= 50 -> > 50", file=STAT, old='                if all_cigars[cnt + 1] == "D":\n                    total_del += 1\n                    if int(all_cigars[cnt]) >= 50:', new='                if all_cigars[cnt + 1] == "D":\n                    total_del += 1\n                    if int(all_cigars[cnt]) > 50:', expect="run_stat", functions=[(STAT, "run_stat#loop")], quick=False),
        dict(name="tp test ignores lower-case p", file=GAFPY, old='if pattern == "tp:A:" and val != "P" and val != "p":', new='if pattern == "tp:A:" and val != "P":', expect="parse_gaf_line", functions=[(GAFPY, "GAF.parse_gaf_line")]),
    ],
)

PLAN["C20"] = dict(
    level="proof",
    functions=[(PHASE, "add_phase_info#tsv"), (PHASE, "add_phase_info#records"), (GAFPY, "GAF.parse_gaf_line")],
    explanation="TSV loop: the table holds exactly the reads listed, each with the columns of its FIRST line (ghost first-index). Record loop, for any "
                "number of records and optional fields, on a line-structured output sink: one output line per input record in order; its first "
                "twelve fields are the input's columns including the strand; then ps:Z:<chr>-<phase set> and ht:Z:<haplotype> when the read is in "
                "the TSV with a haplotype other than 'none', else ps:Z:none / ht:Z:none; then exactly the input's optional fields key+value in "
                "order; no other field (so no empty field and no bare CIGAR column).",
    trusted_base=["records are those GAF.parse_gaf_line returns (C16)", "'%s\\t%d' % ... formats; write() concatenation = field-list append (assumed)",
                  "opening of the output (path or sys.stdout): bounded stand-in"],
    mutations=[
        dict(name="literal + strand", file=PHASE, old="                gaf_line.strand,\n", new='                "+",\n', expect="add_phase_info#records", functions=[(PHASE, "add_phase_info#records")]),
        dict(name="tags printed with an extra colon", file=PHASE, old='gaf_out.write("\\t%s%s" % (k, gaf_line.tags[k]))', new='gaf_out.write("\\t%s:%s" % (k, gaf_line.tags[k]))', expect="add_phase_info#records", functions=[(PHASE, "add_phase_info#records")]),
        dict(name="last TSV entry wins", file=PHASE, old="        if line_elements[0] not in phase:", new="        if True:", expect="add_phase_info#tsv", functions=[(PHASE, "add_phase_info#tsv")]),
    ],
)

_COLLECT = [(REALIGN, "realign_gaf#collector-full-groups"), (REALIGN, "realign_gaf#collector-leftover")]
# the observation helpers the collector loops call: bodies verified against the very posts the collector fragments use at their call sites
_OBSERVE = [(REALIGN, "one_is_alive#body"), (REALIGN, "all_exited#body"), (REALIGN, "all_are_alive#body")]
_OBSERVE_MUT = [
    dict(name="all_exited ignores running workers (exit code None)", file=REALIGN, old="        if p.exitcode != 0:", new="        if p.exitcode is not None and p.exitcode != 0:", expect="all_exited#body", functions=_OBSERVE[1:2]),
    dict(name="all_exited decides on the first worker", file=REALIGN, old="        if p.exitcode != 0:\n            return False\n    return True", new="        if p.exitcode != 0:\n            return False\n        return True\n    return True", expect="all_exited#body", functions=_OBSERVE[1:2]),
    dict(name="one_is_alive skips the first worker", file=REALIGN, old="    for p in processes:\n        if p.is_alive():", new="    for p in processes[1:]:\n        if p.is_alive():", expect="one_is_alive#body", functions=_OBSERVE[:1]),
    dict(name="harmless: all_exited written with a generator", file=REALIGN, old="    for p in processes:\n        if p.exitcode != 0:\n            return False\n    return True", new="    for p in processes:\n        if not (p.exitcode == 0):\n            return False\n    return True", expect="green", functions=_OBSERVE[1:2]),
]
_C11_MUT = [
    dict(name="drain stops one item early", file=REALIGN, old="        queue_len = len(p_queue.queue)\n        for _ in range(queue_len):\n            output.write(p_queue.get().seq)\n    logger.info", new="        queue_len = len(p_queue.queue)\n        for _ in range(queue_len - 1):\n            output.write(p_queue.get().seq)\n    logger.info", expect="drain-leftover", functions=[(REALIGN, "realign_gaf#drain-leftover")]),
    dict(name="fall through after the exit-code check (stale item)", file=REALIGN, old="                            sys.exit(1)\n                        continue", new="                            sys.exit(1)", expect="collector-full-groups", functions=_COLLECT[:1]),
    dict(name="same in the leftover loop", file=REALIGN, old="                        sys.exit(1)\n                    continue", new="                        sys.exit(1)", expect="collector-leftover", functions=_COLLECT[1:]),
    dict(name="sentinel counted for results", file=REALIGN, old="                if out_string_obj is None:  # sentinel counter to count finished processes", new="                if out_string_obj is not None:  # sentinel counter to count finished processes", expect="collector-full-groups", functions=_COLLECT[:1], quick=False),
]
PLAN["C11"] = dict(
    level="other",
    functions=_COLLECT + [(REALIGN, "realign_gaf#drain-full-groups"), (REALIGN, "realign_gaf#drain-leftover")] + _OBSERVE,
    explanation="PROVED relative to the assumed multiprocessing environment (DESIGN 3.5: get(timeout) may raise Empty at ANY time, or returns the next "
                "object of SOME worker, per-producer FIFO, None last; liveness observations are arbitrary): for every number of workers, every "
                "number of results per worker and every resolution of those choices, both collector loops consume each dequeued object exactly "
                "once in the iteration that dequeued it (no stale or unbound use), keep every received result in p_queue exactly once (ghost "
                "bijection), count exactly the sentinels received (ghost done / not-done prefix counts, pairwise-monotone, no induction needed), "
                "and can only finish when every worker's sentinel - hence, by FIFO, every result - has been received. Both drain loops then write "
                "every collected item exactly once, smallest priority first (= input order), leave the queue empty and never call get() on an "
                "empty PriorityQueue (which would block for ever). The helpers one_is_alive / all_are_alive / all_exited are verified as written (loops over the "
                "worker list): they return exactly the observations the collector contracts use at their call sites. BOUNDED: batching, and byte-identity with the single-core output on scripted fake-mp schedules and real processes.",
    trusted_base=["multiprocessing.Queue / Process behave as the environment contract of DESIGN 3.5 (assumed)", "queue.PriorityQueue: get() removes and returns the smallest item, blocks on an empty queue (assumed; abstract state = content sorted by priority)",
                  "the hand-over between the collector fragment (p_queue as the list of put() items) and the drain fragment (its sorted view) is the PriorityQueue abstraction (assumed)",
                  "batching, wfa_alignment: BOUNDED stand-in only"],
    not_applicable_clauses=["corruption of the queue pipe by a worker killed during a write is outside the environment contract (see C13 known finding)"],
    mutations=_C11_MUT + _OBSERVE_MUT[2:],
)
PLAN["C13"] = dict(
    level="other",
    functions=_COLLECT + [(REALIGN, "wfa_alignment")] + _OBSERVE,
    explanation="PROVED (safety half, same fragment and environment as C11): the collector loops return normally only after every worker's sentinel was "
                "received, so a worker that died before delivering its sentinel can never lead to a normal return (success is never reported for "
                "an output that is missing records); the only other way out is sys.exit(1) - exit status non-zero - and it is taken only when "
                "some worker has TERMINATED with a non-zero exit code (observations of is_alive / exitcode are truthful snapshots, workers never "
                "restart), so a slow but healthy worker can never cause an abort; wfa_alignment delivers its sentinel only on normal completion "
                "(a crash inside the batch - modelled as the aligner raising - leaves no sentinel). BOUNDED: every kill point x schedule with the fake mp, and real processes killed at each "
                "point (non-zero exit within a wall-clock limit). NOT APPLICABLE to this technique: that the wait on a live worker is finite "
                "(liveness under OS scheduling fairness).",
    trusted_base=["multiprocessing environment contract (assumed)", "Process.is_alive() / Process.exitcode of ONE worker are arbitrary but truthful at the moment they are read (assumed); "
                  "what one_is_alive / all_are_alive / all_exited make of them over the whole worker list is PROVED (bodies under contract, same posts as the caller view)"],
    not_applicable_clauses=["'never hangs' as liveness: needs scheduler fairness; only the classification 'the sole stuttering iteration is: queue empty while a worker is alive' is in reach",
                            "known finding 'worker-dies-mid-delivery' (known_findings.json): a worker killed in the middle of a pipe write blocks the parent inside Queue.get"],
    mutations=[
        dict(name="exit status 0 on worker failure", file=REALIGN, old="                            sys.exit(1)\n                        continue", new="                            sys.exit(0)\n                        continue", expect="collector-full-groups", functions=_COLLECT[:1]),
    ] + _C11_MUT[1:2] + _OBSERVE_MUT,
)

PLAN["C02"] = dict(
    level="other",
    functions=[(CONV, "unstable_to_stable"), (CONV, "stable_to_unstable"), (CONV, "to_stable"), (CONV, "to_unstable#bare"), (CONV, "to_unstable#intervals"), (CONV, "merge_nodes"),
               (GFA, "GFA.get_path")],  # get_path: the per-contig lists handed to the converters are sorted by SO whatever the order of the S lines
    explanation="PROVED: both streaming generators yield exactly one converted record per parsed record, in input order (loop invariant for any "
                "number of records); to_stable copies columns 1-4 and 10-12, keeps every optional field other than cg:Z: with its value and "
                "position, invents no field (a record without CIGAR gets none), and reverses cg:Z: iff the strand flips (part of the whole-function "
                "contract of to_stable, C01); to_unstable likewise (columns 1-4, 10-12, tags in order, nothing invented, cg reversed iff the "
                "input strand is '-'). BOUNDED (not proved): the two round trips "
                "(canonical unstable -> stable -> unstable, gaftools-canonical stable -> unstable -> stable) byte for byte.",
    trusted_base=["GAF.read_file yields the parsed records in file order (C16)", "to_unstable and the round-trip / composition lemma: BOUNDED stand-in only"],
    not_applicable_clauses=[],
    mutations=[
        dict(name="generator skips '-' records", file=CONV, old="    for gaf_line in gaf_input.read_file():\n        yield to_stable(gaf_line, nodes, ref_contig, contig_len)", new="    for gaf_line in gaf_input.read_file():\n        if gaf_line.strand == \"+\":\n            yield to_stable(gaf_line, nodes, ref_contig, contig_len)", expect="unstable_to_stable", functions=[(CONV, "unstable_to_stable")]),
        dict(name="query_start copied into column 4", file=CONV, old="        gaf_line.query_start,\n        gaf_line.query_end,\n        gaf_line.strand,\n        stable_coord,", new="        gaf_line.query_start,\n        gaf_line.query_start,\n        gaf_line.strand,\n        stable_coord,", expect="to_stable", functions=[(CONV, "to_stable")], quick=False),
    ],
)

PLAN["C12"] = dict(
    level="other",
    functions=[(REALIGN, "wfa_alignment")],
    explanation="PROVED (glue around the external aligner, for any batch size and CIGAR length): wfa_alignment puts exactly one item per record, carrying "
                "the record's input counter as priority, then the sentinel; columns 1-9 and 12 are copied; column 10 is the sum of the lengths of the "
                "'=' runs and column 11 the sum of all run lengths of the aligner's cigartuples (ghost prefix sums); records with more than 60000 read "
                "bases are re-emitted with their columns and optional fields; every record of AT MOST 60000 read bases carries the new tallies, keeps every "
                "optional field in place with only the cg:Z: value replaced by the aligner's CIGAR string (one field added when there was none); "
                "every optional field is printed key+value in stored order. ASSUMED, not "
                "proved (external C library pywfa): the returned CIGAR consumes both strings, pairs equal bases under '=' and unequal under 'X', and is "
                "optimal for the gap-affine penalties; the bounded stand-in validates that on generated reads.",
    trusted_base=["pywfa.WavefrontAligner(ref)(query) returns a valid optimal global alignment (ASSUMED; runtime-validated by the bounded stand-in)",
                  "extract_path slice / FastaFile.fetch: bounded stand-in", "f-strings read as %-formats (assumed)"],
    not_applicable_clauses=["validity and optimality of the CIGAR computed inside the pywfa C extension"],
    mutations=[
        dict(name="mismatches tallied as matches", file=REALIGN, old="                elif op_type == 8:\n                    mismatch += op_len", new="                elif op_type == 8:\n                    match += op_len", expect="wfa_alignment"),
        dict(name="records of exactly 60000 bases passed through", file=REALIGN, old="        if gaf_line.query_end - gaf_line.query_start > 60_000:", new="        if gaf_line.query_end - gaf_line.query_start >= 60_000:", expect="wfa_alignment"),
        dict(name="sentinel not sent", file=REALIGN, old="    qu.put(None)  # sentinel for finished process", new="    pass", expect="wfa_alignment"),
    ],
)

PLAN["C17"] = dict(
    level="other",
    functions=[(SORT, "sort#passes"), (INDEX, "run#index-loop"), (GAFPY, "GAF.parse_gaf_line"), (GFA, "GFA.read_graph#s-lines"), (GFA, "GFA.read_graph#l-lines")],
    lemmas=[io_c.handle_usage_lemma],
    explanation="PROVED: the graph read by read_graph is a function of the LIST OF LINES the file handle yields (both loops are verified over that list), "
                "so a plain and a gzip-compressed GFA with the same lines give the same graph. Every consumer of a GAF handle (index.run, sort.sort, GAF.read_file / read_line / close, view.run) touches it only through "
                "tell / readline / seek / close / iteration (syntactic frame obligation on the working tree), and the loops of index.run and sort.sort "
                "are verified against the ABSTRACT reader contract (opaque strictly increasing offsets), so their postconditions (C03, C09, C10) hold "
                "for any handle that satisfies it; parse_gaf_line's postcondition does not depend on gz_flag. ASSUMED (the substance of the property): "
                "pysam's BGZFile and text files satisfy that reader contract, virtual offsets included, and gzip.open(.., 'rt') yields the same lines "
                "as open(). BOUNDED: every sub-command on plain vs BGZF (> 64 KiB, several blocks) and .gfa vs .gfa.gz inputs, outputs compared.",
    trusted_base=["pysam.libcbgzf.BGZFile and text files satisfy the reader contract (ASSUMED; exercised by the bounded stand-in)",
                  "bytes vs str branches (decode) produce the same text: modelled as identity, bounded only", "is_file_gzipped magic-byte sniffing (assumed)"],
    not_applicable_clauses=["BGZF / gzip library internals"],
    mutations=[
        dict(name="sort reads the handle another way", file=SORT, old="            line = reader.readline()\n            if not line:\n                break", new="            line = reader.read(100)\n            if not line:\n                break", expect="sort"),
    ],
)
