"""Which functions, lemmas, mutations and bounded stand-ins decide each property."""
from contracts import sort_c

SORT = "gaftools/cli/sort.py"
PLAN = {}

PLAN["C08"] = dict(
    level="proof",
    functions=[(SORT, "compare_gaf")],
    extra={(SORT, "compare_gaf"): sort_c.relational_obligations},
    explanation="compare_gaf is verified against the lexicographic key (untagged, BO, NO, start, offset) on every path, and antisymmetry / "
                "transitivity / totality are proved directly on the code (three symbolic records).",
    trusted_base=["assumed: list.sort(key=cmp_to_key(f)) yields a permutation sorted w.r.t. f whenever f is a strict total order (CPython)"],
    not_applicable_clauses=[],
    mutations=[
        dict(name="NO compared via BO again", file=SORT, old="    if al1.NO > al2.NO:\n        return 1\n", new="    if al1.BO > al2.BO:\n        return 1\n", expect="compare_gaf"),
        dict(name="untagged sorted first", file=SORT, old="    if al1.BO == -1 and al2.BO != -1:\n        return 1\n", new="    if al1.BO == -1 and al2.BO != -1:\n        return -1\n", expect="compare_gaf"),
        dict(name="drop start comparison", file=SORT, old="    if al1.start < al2.start:\n        return -1\n", new="", expect="compare_gaf"),
        dict(name="harmless: elif->if after return", file=SORT, old="    if al2.BO == -1 and al1.BO != -1:\n        return -1\n", new="    elif al2.BO == -1 and al1.BO != -1:\n        return -1\n", expect="green"),
    ],
)
