#!/usr/bin/env python3
"""Regenerate MANIFEST.json from checks/plan.py (run manually; validated against the schema)."""
import json
import os
import subprocess
import sys

ROOT = os.path.dirname(os.path.dirname(os.path.abspath(__file__)))
sys.path.insert(0, ROOT)
from checks import plan as planmod  # noqa

ids = [json.loads(l)["id"] for l in open(os.path.join(ROOT, "properties.jsonl"))]
hook = subprocess.check_output(["git", "-C", "/repo", "log", "--format=%H %s"]).decode().splitlines()
hook_commits = [l.split()[0] for l in hook if l.split(" ", 1)[1].startswith("verif hook")]
checks = []
for pid in ids:
    p = planmod.PLAN.get(pid)
    if p is None or p.get("unclaimed"):
        continue
    checks.append({
        "property_id": pid,
        "quick_cmd": "python3-vt checks/check.py %s --tier quick" % pid,
        "thorough_cmd": "python3-vt checks/check.py %s --tier thorough" % pid,
        "evidence_file": "evidence/%s.json" % pid,
        "replay_cmd_template": "python3-vt checks/check.py %s --replay {path}" % pid,
        "engine": "pyvc+rtc",
        "level_claimed": {"category": p["level"], "text": p["explanation"], "design_ref": "DESIGN.md section 4 (%s) and section 13" % pid},
        "level_note": "; ".join(p.get("trusted_base", [])) or "see evidence trusted_base",
        "technique": p.get("technique", "contract-based deductive verification: sidecar contracts on the real functions, VCs generated from the working-tree AST (pyvc), discharged by z3/cvc5; bounded runtime-contract stand-in (rtc) labelled as such"),
    })
na = [{"property_id": pid, "reason": (planmod.PLAN.get(pid) or {}).get("unclaimed", "deductive contracts for this property are not built yet in this round; not claimed")}
      for pid in ids if pid not in {c["property_id"] for c in checks}]
m = {
    "version": 1,
    "setup_cmd": "python3-vt -m compileall -q pyvc contracts rtc checks",
    "hooks": {"guard": "GAFTOOLS_VERIF", "enable": "export GAFTOOLS_VERIF=1 (set by the checks themselves; PYTHONPATH=/repo so the working tree runs); GAFTOOLS_VERIF_BATCH_SIZE=<n> overrides the realign batch size",
              "baseline_off_cmd": "cd /repo && /venv/bin/python -m pytest -ra -q -p no:cacheprovider --timeout=900 --continue-on-collection-errors",
              "source_commits": hook_commits, "add_only": True},
    "engines": [
        {"name": "pyvc", "path": "pyvc/", "serves_properties": [c["property_id"] for c in checks],
         "kind_free_text": "deductive: verification-condition generator over the real Python AST with sidecar contracts (requires/ensures/loop invariants/ghost state), z3 + cvc5 back ends"},
        {"name": "rtc", "path": "rtc/", "serves_properties": [c["property_id"] for c in checks],
         "kind_free_text": "bounded stand-in + replay: runtime checks of the real code over enumerated small scopes with independent oracles; never counted as proof"}],
    "checks": checks,
    "notes": "exit codes: 0 held, 1 VIOLATION (refuted obligation / failing concrete case), 2 undecided (never reported as violation), 3 checker crash. "
             "known_findings.json lists repaired defects (fixed:) and recorded findings; baseline_obligations.json lists the obligations discharged on the committed tree.",
    "not_applicable": na,
}
json.dump(m, open(os.path.join(ROOT, "MANIFEST.json"), "w"), indent=1)
try:
    import jsonschema
    jsonschema.validate(m, json.load(open("/root/.vp/MANIFEST.schema.json")))
    print("MANIFEST valid:", len(checks), "checks,", len(na), "not_applicable")
except ImportError:
    print("written (jsonschema not available to validate)")
