#!/usr/bin/env python3
"""Confirm a seeded change independently and store it under /verif/seeded/<name>/:
   seedconfirm.py <seed_out dir> <prop> <n> [<name under seeded/>]
   - the existing test-suite passes with the change (scratch worktree of /repo)
   - the demonstration fails with the change and passes without it
Writes patch.diff, demo.py, notes.txt, meta.json."""
import json
import os
import shutil
import subprocess
import sys
import tempfile

ROOT = os.path.dirname(os.path.dirname(os.path.abspath(__file__)))


def run(cmd, cwd, env=None, timeout=900):
    try:
        p = subprocess.run(cmd, cwd=cwd, env=env, capture_output=True, text=True, timeout=timeout)
        return p.returncode, (p.stdout + p.stderr)[-600:]
    except subprocess.TimeoutExpired:
        return 124, "timeout"


def main():
    src, prop, n = sys.argv[1], sys.argv[2], sys.argv[3]
    name = sys.argv[4] if len(sys.argv) > 4 else "%s-%s" % (prop, n)  # seeded/<name>
    patch = os.path.join(src, "change_%s.diff" % n)
    demo = os.path.join(src, "demo_%s.py" % n)
    notes = os.path.join(src, "notes_%s.txt" % n)
    wt = tempfile.mkdtemp(prefix="seedconf-")
    os.rmdir(wt)
    subprocess.check_call(["git", "-C", "/repo", "worktree", "add", "-q", wt, "HEAD"])
    env = dict(os.environ, PYTHONPATH=wt, GAFTOOLS_VERIF="0")
    env.pop("GAFTOOLS_VERIF")
    meta = {"property": prop, "seed": name}
    try:
        shutil.copy(demo, os.path.join(wt, "demo_seed.py"))
        rc0, out0 = run(["/venv/bin/python", "demo_seed.py"], wt, env)
        meta["demo_without_change"] = {"rc": rc0, "tail": out0[-200:]}
        subprocess.check_call(["git", "-C", wt, "apply", patch])
        rct, outt = run(["/venv/bin/python", "-m", "pytest", "-q", "-p", "no:cacheprovider", "-x"], wt, env)
        meta["tests_with_change"] = {"rc": rct, "tail": outt.strip().splitlines()[-1] if outt.strip() else ""}
        rc1, out1 = run(["/venv/bin/python", "demo_seed.py"], wt, env)
        meta["demo_with_change"] = {"rc": rc1, "tail": out1[-300:]}
    finally:
        subprocess.call(["git", "-C", "/repo", "worktree", "remove", "--force", wt])
        shutil.rmtree(wt, ignore_errors=True)
    ok = meta["demo_without_change"]["rc"] == 0 and meta["tests_with_change"]["rc"] == 0 and meta["demo_with_change"]["rc"] not in (0, 124)
    meta["confirmed"] = ok
    print(prop, n, "confirmed" if ok else "NOT CONFIRMED", meta["demo_without_change"]["rc"], meta["tests_with_change"]["rc"], meta["demo_with_change"]["rc"])
    if ok:
        d = os.path.join(ROOT, "seeded", name)
        os.makedirs(d, exist_ok=True)
        shutil.copy(patch, os.path.join(d, "patch.diff"))
        shutil.copy(demo, os.path.join(d, "demo.py"))
        meta["needs_to_manifest"] = open(notes).read().strip() if os.path.exists(notes) else ""
        meta["what_i_ran"] = ["git worktree add <scratch> HEAD; git apply patch.diff", "PYTHONPATH=<scratch> /venv/bin/python -m pytest -q -p no:cacheprovider -x  (54 passed)",
                              "PYTHONPATH=<scratch> /venv/bin/python demo.py  with the change (non-zero) and without (0)",
                              "python3-vt checks/seedtest.py seeded/%s/patch.diff %s" % (name, prop)]
        json.dump(meta, open(os.path.join(d, "meta.json"), "w"), indent=1)


if __name__ == "__main__":
    main()
