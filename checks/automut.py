#!/usr/bin/env python3
"""automut.py <Cxx> [--max N] [--only <func-substring>]: contract-strength probe.

Generates small syntactic mutants (comparison / arithmetic / boolean operator swaps, off-by-one constants, dropped statements) INSIDE the
functions the property has under contract, on a scratch copy of the working tree, and re-verifies only the affected contract.
A mutant is   detected   when some obligation is no longer discharged,
              undecided  when the engine cannot analyse it (anchor gone, unsupported construct),
              survived   when every obligation still discharges: an equivalent mutant, or a behaviour the contract does not pin down.
Survivors are listed (file:line, before -> after) so that the contracts can be strengthened; nothing here is a verdict about /repo.
Used by hand and by the thorough tier as evidence of how much a change inside a function under contract is noticed."""
import ast
import copy
import json
import os
import random
import shutil
import sys
import tempfile
import time

ROOT = os.path.dirname(os.path.dirname(os.path.abspath(__file__)))
sys.path.insert(0, ROOT)

CMP = {ast.Lt: ast.LtE, ast.LtE: ast.Lt, ast.Gt: ast.GtE, ast.GtE: ast.Gt, ast.Eq: ast.NotEq, ast.NotEq: ast.Eq}
BIN = {ast.Add: ast.Sub, ast.Sub: ast.Add}


class Sites(ast.NodeVisitor):
    def __init__(self):
        self.sites = []

    def generic_visit(self, node):
        if isinstance(node, ast.Compare):
            for i, op in enumerate(node.ops):
                if type(op) in CMP:
                    self.sites.append(("cmp", node, i))
        elif isinstance(node, ast.BinOp) and type(node.op) in BIN and not isinstance(node.left, ast.Constant) or \
                (isinstance(node, ast.BinOp) and type(node.op) in BIN and isinstance(node.left, ast.Constant) and isinstance(node.left.value, int)):
            self.sites.append(("bin", node, 0))
        elif isinstance(node, ast.BoolOp):
            self.sites.append(("bool", node, 0))
        elif isinstance(node, ast.UnaryOp) and isinstance(node.op, ast.Not):
            self.sites.append(("not", node, 0))
        elif isinstance(node, ast.Constant) and isinstance(node.value, int) and not isinstance(node.value, bool) and 0 <= node.value <= 2:
            self.sites.append(("const", node, 0))
        elif isinstance(node, ast.AugAssign):
            self.sites.append(("dropaug", node, 0))
        elif isinstance(node, ast.Expr) and isinstance(node.value, ast.Call) and isinstance(node.value.func, ast.Attribute) \
                and node.value.func.attr in ("append", "add", "write", "put", "remove", "pop", "reverse", "sort"):
            self.sites.append(("dropcall", node, 0))
        elif isinstance(node, ast.Continue):
            self.sites.append(("continue", node, 0))
        super().generic_visit(node)


def find_function(tree, func):
    parts = func.split(".")
    body = tree.body
    node = None
    for p in parts:
        node = None
        for n in body:
            if isinstance(n, (ast.FunctionDef, ast.ClassDef)) and n.name == p:
                node = n
                body = n.body
                break
        if node is None:
            return None
    return node


def apply_site(kind, node, i):
    """mutate in place; returns description or None"""
    if kind == "cmp":
        old = type(node.ops[i]).__name__
        node.ops[i] = CMP[type(node.ops[i])]()
        return "%s -> %s" % (old, type(node.ops[i]).__name__)
    if kind == "bin":
        old = type(node.op).__name__
        node.op = BIN[type(node.op)]()
        return "%s -> %s" % (old, type(node.op).__name__)
    if kind == "bool":
        old = type(node.op).__name__
        node.op = ast.Or() if isinstance(node.op, ast.And) else ast.And()
        return "%s -> %s" % (old, type(node.op).__name__)
    if kind == "const":
        node.value = node.value + 1
        return "const %d -> %d" % (node.value - 1, node.value)
    return None


def fragment_stmts(fn, fragment):
    """the statement range a fragment contract covers (same search as pyvc.engine.fragment_body)"""
    if not fragment:
        return fn.body
    start_pat, end_pat = fragment[0], fragment[1]
    skip = [fragment[2] if len(fragment) > 2 else 0]

    def find(stmts):
        heads = [ast.unparse(s).split("\n")[0] for s in stmts]
        for i, h in enumerate(heads):
            if h.startswith(start_pat):
                if skip[0] > 0:
                    skip[0] -= 1
                    continue
                if isinstance(end_pat, int):
                    return stmts[i:i + end_pat]
                for j in range(i, len(heads)):
                    if heads[j].startswith(end_pat):
                        return stmts[i:j + 1]
                return None
        for s in stmts:
            subs = [getattr(s, f, None) for f in ("body", "orelse", "finalbody")] + [h.body for h in getattr(s, "handlers", [])]
            for sub in subs:
                if isinstance(sub, list) and sub and isinstance(sub[0], ast.stmt):
                    r = find(sub)
                    if r is not None:
                        return r
        return None
    return find(fn.body) or []


def sites_of(src, func, fragment):
    tree = ast.parse(src)
    fn = find_function(tree, func)
    if fn is None:
        return tree, []
    sv = Sites()
    for s in fragment_stmts(fn, fragment):
        sv.visit(s)
    return tree, sv.sites


def mutants_of(src, func, rng, limit, fragment=None):
    tree, sites = sites_of(src, func, fragment)

    class _SV:
        pass
    sv = _SV()
    sv.sites = sites
    idxs = list(range(len(sv.sites)))
    rng.shuffle(idxs)
    out = []
    for k in sorted(idxs[:limit]):
        t2, sites2 = sites_of(src, func, fragment)
        kind, node, i = sites2[k]
        line = getattr(node, "lineno", 0)
        before = ast.unparse(node)[:80]
        if kind in ("dropaug", "dropcall", "continue"):
            rep = ast.Pass()
            ast.copy_location(rep, node)

            class R(ast.NodeTransformer):
                def visit(self, n):
                    if n is node:
                        return rep
                    return super().visit(n)
            R().visit(t2)
            desc = "statement dropped"
        elif kind == "not":
            class R2(ast.NodeTransformer):
                def visit(self, n):
                    if n is node:
                        return node.operand
                    return super().visit(n)
            R2().visit(t2)
            desc = "`not` removed"
        else:
            desc = apply_site(kind, node, i)
        ast.fix_missing_locations(t2)
        try:
            new_src = ast.unparse(t2)
            compile(new_src, "<mutant>", "exec")
        except Exception:  # noqa
            continue
        out.append(dict(line=line, before=before, change=desc, src=new_src))
    return out


def probe(pid, max_per_fn=12, seed=0, only=None, repo=None, verbose=True, budget_s=None):
    from checks import plan as planmod
    from checks.deductive import verify_all
    import contracts
    repo = repo or os.environ.get("VERIF_REPO", "/repo")
    plan = planmod.PLAN[pid]
    rng = random.Random(seed)
    reg = contracts.build_registry()
    report = []
    t0 = time.time()
    for key in plan["functions"]:
        file, func = key
        if file.startswith("("):
            continue
        if only and only not in func:
            continue
        if budget_s is not None and time.time() - t0 > budget_s:
            break
        base = func.split("#")[0]
        src = open(os.path.join(repo, file)).read()
        # NOTE: the mutated source is the unparsed AST of the whole file (comments dropped): contracts anchor on unparsed statement text
        muts = mutants_of(src, base, rng, max_per_fn, reg.by_key[key].fragment)
        for m in muts:
            scratch = tempfile.mkdtemp(prefix="automut-")
            try:
                shutil.copytree(os.path.join(repo, "gaftools"), os.path.join(scratch, "gaftools"))
                open(os.path.join(scratch, file), "w").write(m["src"])
                outs = verify_all(dict(plan, lemmas=[]), scratch, only=[key], z3_ms=8000)
            finally:
                shutil.rmtree(scratch, ignore_errors=True)
            o = outs[0]
            if o["status"] == "unsupported":
                verdict, why = "undecided", str(o["unsupported"])[:120]
            else:
                bad = [r["name"].split("::", 1)[1] for r in o["results"] if r["status"] != "discharged"]
                verdict, why = ("detected", ", ".join(bad[:2])) if bad else ("survived", "")
            report.append(dict(function=func, file=file, line=m["line"], before=m["before"], change=m["change"], verdict=verdict, detail=why))
            if verbose:
                print("%-9s %s:%s  %s  [%s]  %s" % (verdict, func, m["line"], m["before"], m["change"], why[:100]), flush=True)
    n = len(report)
    det = sum(1 for r in report if r["verdict"] == "detected")
    und = sum(1 for r in report if r["verdict"] == "undecided")
    return dict(property=pid, mutants=n, detected=det, undecided=und, survived=n - det - und, wall_s=round(time.time() - t0, 1),
                survivors=[dict(function=r["function"], line=r["line"], before=r["before"], change=r["change"]) for r in report if r["verdict"] == "survived"],
                note="syntactic mutants inside the statements under contract, re-verified by the deductive engine only (8 s per obligation): "
                     "'detected' = some obligation no longer discharged, 'undecided' = anchor / construct no longer recognised, 'survived' = "
                     "equivalent mutant or behaviour the contract does not pin down (often logging, or covered by another contract / the bounded engine)",
                report=report)


def main():
    import argparse
    ap = argparse.ArgumentParser()
    ap.add_argument("pid")
    ap.add_argument("--max", type=int, default=12)
    ap.add_argument("--only", default=None)
    ap.add_argument("--seed", type=int, default=0)
    ap.add_argument("--out", default=None)
    a = ap.parse_args()
    res = probe(a.pid, a.max, a.seed, a.only)
    print("SUMMARY %s: %d mutants, %d detected, %d undecided, %d survived, %.0fs" % (a.pid, res["mutants"], res["detected"], res["undecided"], res["survived"], res["wall_s"]))
    if a.out:
        json.dump(res, open(a.out, "w"), indent=1)


if __name__ == "__main__":
    main()
