#!/usr/bin/env python3
"""check.py <Cxx> --tier quick|thorough [--replay FILE]

Engine A (pyvc, deductive): re-reads /repo's working tree, generates the verification conditions of every
function under contract for the property and discharges them with z3 / cvc5.
Engine B (rtc, bounded stand-in + replay): runs as /venv/bin/python subprocess on the real code.

exit 0  every obligation discharged, guards passed, bounded stand-ins clean (or only listed known findings)
exit 1  + line `VIOLATION property=<id> replay=<path>`: an obligation was refuted / a runtime contract failed
exit 2  undecided (unknown / unsupported construct / anchor not found), nothing refuted
exit 3  checker crash
"""

import argparse
import json
import os
import subprocess
import sys
import time
import traceback

ROOT = os.path.dirname(os.path.dirname(os.path.abspath(__file__)))
sys.path.insert(0, ROOT)
REPO = os.environ.get("VERIF_REPO", "/repo")
VENV_PY = "/venv/bin/python"


def load_known():
    try:
        return json.load(open(os.path.join(ROOT, "known_findings.json")))
    except Exception:
        return {"fixed": [], "findings": []}


def run_engine_b(pid, tier, seed, replay_dir):
    """bounded stand-in: subprocess under the repo's interpreter, working tree first on the path"""
    env = dict(os.environ)
    env["PYTHONPATH"] = REPO + ":" + ROOT
    env["GAFTOOLS_VERIF"] = "1"
    env["VERIF_SEED"] = str(seed)
    env["PYTHONDONTWRITEBYTECODE"] = "1"
    out_json = os.path.join(replay_dir, ".%s-bounded.json" % pid)
    cmd = [VENV_PY, "-m", "rtc.run", pid, "--tier", tier, "--seed", str(seed), "--out", out_json, "--replay-dir", replay_dir]
    t0 = time.time()
    p = subprocess.run(cmd, cwd=ROOT, env=env, capture_output=True, text=True)
    dt = time.time() - t0
    try:
        res = json.load(open(out_json))
        os.unlink(out_json)
    except Exception:
        res = {"crashed": True, "stderr": p.stderr[-3000:], "stdout": p.stdout[-1000:], "rc": p.returncode}
    res["wall_s"] = round(dt, 2)
    return res


def main():
    ap = argparse.ArgumentParser()
    ap.add_argument("pid")
    ap.add_argument("--tier", default=os.environ.get("VERIF_TIER", "quick"), choices=["quick", "thorough"])
    ap.add_argument("--replay", default=None)
    ap.add_argument("--no-bounded", action="store_true")
    ap.add_argument("--no-deductive", action="store_true")
    args = ap.parse_args()
    pid = args.pid
    seed = int(os.environ.get("VERIF_SEED", "0") or 0)
    t0 = time.time()
    replay_dir = os.environ.get("VERIF_REPLAY_DIR") or os.path.join(ROOT, "replays")
    evidence_dir = os.environ.get("VERIF_EVIDENCE_DIR") or os.path.join(ROOT, "evidence")
    os.makedirs(replay_dir, exist_ok=True)
    os.makedirs(evidence_dir, exist_ok=True)

    if args.replay:
        env = dict(os.environ)
        env["PYTHONPATH"] = REPO + ":" + ROOT
        env["GAFTOOLS_VERIF"] = "1"
        p = subprocess.run([VENV_PY, "-m", "rtc.run", pid, "--replay", args.replay], cwd=ROOT, env=env)
        sys.exit(p.returncode)

    from checks import plan as planmod
    from checks.deductive import run_deductive
    plan = planmod.PLAN[pid]
    known = load_known()
    violations = []  # (replay_path, text, suffix)
    known_hits = []
    undecided = []
    ded = None
    if not args.no_deductive:
        ded = run_deductive(pid, plan, REPO, args.tier, seed, replay_dir)
        for v in ded["violations"]:
            violations.append(v)
        undecided += ded["undecided"]
    bnd = None
    if not args.no_bounded and plan.get("bounded", True):
        bnd = run_engine_b(pid, args.tier, seed, replay_dir)
        if bnd.get("crashed"):
            undecided.append("bounded stand-in crashed: rc=%s %s" % (bnd.get("rc"), (bnd.get("stderr") or "")[-400:]))
        else:
            for f in bnd.get("failures", []):
                kf = f.get("known_finding")
                if kf and any(k.get("id") == kf and k.get("property") == pid for k in known.get("findings", [])):
                    known_hits.append((kf, f.get("what", "")))
                else:
                    violations.append((f.get("replay"), f.get("what", ""), ""))
    # a deductive violation without input gets the concrete witness of the bounded engine when there is one
    concrete = [v for v in violations if v[2] == "" and v[0] and "bounded" in os.path.basename(v[0])]
    if concrete:
        violations = [((concrete[0][0], v[1] + " -- failing input found by the bounded engine: " + concrete[0][1], "") if v[2] == "no-failing-input-found" else v)
                      for v in violations]
    wall = time.time() - t0

    # ---- evidence ------------------------------------------------------------------------------------
    level = plan["level"]
    cov = {}
    assumptions = list(plan.get("assumptions", []))
    if ded is not None:
        cov.update(ded["coverage"])
        assumptions += ded["assumptions"]
    if bnd is not None and not bnd.get("crashed"):
        cov["bounded"] = {k: bnd.get(k) for k in ("evaluations", "distinct_nontrivial", "rule", "samples", "exhaustive", "bounds", "sections", "wall_s") if k in bnd}
        cov["bounded"]["label"] = "BOUNDED stand-in (runtime checks of the real code over an enumerated small scope); never counted in `discharged`"
        if "evaluations" not in cov:
            pass
    if level != "proof" or "obligations" not in cov:
        # generic keys for non-proof levels come from the bounded engine
        if bnd is not None and not bnd.get("crashed"):
            cov.setdefault("evaluations", bnd.get("evaluations", 0))
            cov.setdefault("distinct_nontrivial", bnd.get("distinct_nontrivial", 0))
            cov.setdefault("rule", bnd.get("rule", ""))
    cov.setdefault("samples", [])
    if bnd is not None and not bnd.get("crashed") and bnd.get("samples"):
        cov["samples"] = list(cov["samples"]) + [{"bounded_case": s} for s in bnd["samples"][:3]]
    cov["explanation"] = plan.get("explanation", "")
    cov["not_applicable_clauses"] = plan.get("not_applicable_clauses", [])
    cov["known_findings_reported"] = [k for k, _ in known_hits]
    cov["undecided"] = undecided
    if level == "proof" and ded is not None and (cov.get("obligations", 0) != cov.get("discharged", -1)):
        level_out = "other"
        cov["explanation"] = "NOT a proof in this run: %d of %d obligations discharged. " % (cov.get("discharged", 0), cov.get("obligations", 0)) + cov["explanation"]
    else:
        level_out = level
    ev = {"property_id": pid, "tier": args.tier, "seed": seed, "level": level_out, "coverage": cov,
          "assumptions": sorted(set(assumptions)), "wall_s": round(wall, 2), "violations": len(violations)}
    with open(os.path.join(evidence_dir, pid + ".json"), "w") as f:
        json.dump(ev, f, indent=1, default=str)

    for kf, what in known_hits:
        print("KNOWN-FINDING: property=%s %s" % (pid, what))
    if violations:
        for path, what, suffix in violations:
            print("VIOLATION property=%s replay=%s%s" % (pid, path, (" " + suffix) if suffix else ""))
            if what:
                print("  " + what[:500])
        for u in undecided:
            print("NOTE (undecided part) property=%s %s" % (pid, u[:300]))
        sys.exit(1)
    if undecided:
        for u in undecided:
            print("UNDECIDED property=%s %s" % (pid, u[:500]))
        sys.exit(2)
    n_ob = cov.get("obligations", 0)
    print("OK property=%s tier=%s obligations=%d discharged=%d bounded_cases=%s wall=%.1fs" % (
        pid, args.tier, n_ob, cov.get("discharged", 0), (bnd or {}).get("evaluations"), wall))
    sys.exit(0)


if __name__ == "__main__":
    try:
        main()
    except SystemExit:
        raise
    except BaseException:  # noqa
        traceback.print_exc()
        sys.exit(3)
