#!/usr/bin/env python3
"""Run the registered checks against a seeded change WITHOUT touching /repo: the patch is applied to a scratch git worktree and the
check runs with VERIF_REPO pointing at it.   seedtest.py <seeded/<id>/patch.diff> <Cxx> [<Cyy> ...] [--tier quick]"""
import json
import os
import shutil
import subprocess
import sys
import tempfile

ROOT = os.path.dirname(os.path.dirname(os.path.abspath(__file__)))


def main():
    patch = os.path.abspath(sys.argv[1])
    pids = [a for a in sys.argv[2:] if not a.startswith("--")]
    tier = "thorough" if "--tier=thorough" in sys.argv else "quick"
    wt = tempfile.mkdtemp(prefix="seedwt-")
    os.rmdir(wt)
    subprocess.check_call(["git", "-C", "/repo", "worktree", "add", "-q", wt, "HEAD"])
    out = {}
    try:
        subprocess.check_call(["git", "-C", wt, "apply", patch])
        for pid in pids:
            scratch = tempfile.mkdtemp(prefix="seedout-")
            env = dict(os.environ, VERIF_REPO=wt, VERIF_EVIDENCE_DIR=scratch, VERIF_REPLAY_DIR=scratch)
            p = subprocess.run(["python3-vt", "checks/check.py", pid, "--tier", tier], cwd=ROOT, env=env, capture_output=True, text=True)
            lines = [l for l in p.stdout.splitlines() if l.startswith(("VIOLATION", "UNDECIDED", "OK", "KNOWN", "NOTE"))]
            viol = [l for l in lines if l.startswith("VIOLATION")]
            ded = [l for l in viol if "-bounded-" not in l]
            bnd = [l for l in viol if "-bounded-" in l]
            try:
                ev = json.load(open(os.path.join(scratch, pid + ".json")))
                refuted = ev["coverage"].get("refuted", [])
            except Exception:
                refuted = []
            out[pid] = dict(rc=p.returncode, deductive=len(refuted), bounded=len(bnd), refuted=refuted[:4])
            print(pid, "rc=%d deductive_obligations_failed=%d bounded_failures=%d" % (p.returncode, len(refuted), len(bnd)))
            for r in refuted[:3]:
                print("    obligation:", r)
            for l in (bnd[:2] + [l for l in lines if l.startswith(("NOTE", "UNDECIDED"))][:3] + [l for l in lines if l.startswith(("OK", "KNOWN"))][:2]):
                print("   ", l[:220])
            shutil.rmtree(scratch, ignore_errors=True)
    finally:
        subprocess.call(["git", "-C", "/repo", "worktree", "remove", "--force", wt])
        shutil.rmtree(wt, ignore_errors=True)
    return out


if __name__ == "__main__":
    main()
