"""Engine A driver for one property: verify every function under contract, run the guards, build replay
files for refuted obligations and the coverage block of the evidence."""

import json
import os
import shutil
import subprocess
import tempfile
import time

from pyvc.api import Registry, verify_function
from pyvc import solve
from pyvc.engine import DROPPED, Unsupported
import contracts

ROOT = os.path.dirname(os.path.dirname(os.path.abspath(__file__)))
VENV_PY = "/venv/bin/python"


def _baseline():
    try:
        return json.load(open(os.path.join(ROOT, "baseline_obligations.json")))
    except Exception:
        return {}


def native_replay(qual, inputs, repo):
    """ask Engine B to run the real function on the decoded counter-model"""
    env = dict(os.environ)
    env["PYTHONPATH"] = repo + ":" + ROOT
    env["PYTHONDONTWRITEBYTECODE"] = "1"
    try:
        p = subprocess.run([VENV_PY, "-m", "rtc.native", qual, json.dumps(inputs, default=str)], cwd=ROOT, env=env,
                           capture_output=True, text=True, timeout=120)
        last = [l for l in p.stdout.strip().splitlines() if l.startswith("{")]
        if last:
            return json.loads(last[-1])
        return {"status": "no-native-replayer", "detail": (p.stderr or p.stdout)[-500:]}
    except Exception as e:  # noqa
        return {"status": "error", "detail": str(e)}


def verify_all(plan, repo, only=None, z3_ms=None):
    reg = contracts.build_registry()
    outs = []
    for key in plan["functions"]:
        if only and key not in only:
            continue
        con = reg.by_key[key]
        extra = plan.get("extra", {}).get(key)
        ex = (lambda e, f=extra: f(reg, repo)) if extra else None
        try:
            out, eng = verify_function(con, reg, repo=repo, extra=ex, z3_ms=z3_ms)
        except Unsupported as e:
            out = dict(function=con.qual, file=con.file, status="unsupported", unsupported=str(e), results=[], canaries=[],
                       assumptions=[], n_paths=0, lifted_asserts=[], fragment=con.fragment, wall_s=0)
        except (OSError, SyntaxError) as e:
            out = dict(function=con.qual, file=con.file, status="unsupported", unsupported="cannot load source: %s" % e, results=[],
                       canaries=[], assumptions=[], n_paths=0, lifted_asserts=[], fragment=con.fragment, wall_s=0)
        outs.append(out)
    for lem in plan.get("lemmas", []):
        t0 = time.time()
        try:
            obligs = lem(reg, repo)
        except (Unsupported, OSError, SyntaxError) as e:
            outs.append(dict(function="lemma:" + lem.__name__, file="(contracts)", status="unsupported", unsupported=str(e), results=[],
                             canaries=[], assumptions=[], n_paths=0, lifted_asserts=[], fragment=None, wall_s=0))
            continue
        res = solve.discharge(obligs)
        for r, o in zip(res, obligs):
            r["_oblig"] = o
        outs.append(dict(function="lemma:" + lem.__name__, file="(contracts)", status="ok", unsupported=None, results=res,
                         canaries=[], assumptions=[], n_paths=0, lifted_asserts=[], fragment=None, wall_s=round(time.time() - t0, 3)))
    return outs


def mutation_selftest(plan, repo, tier):
    """apply each catalogued edit to a scratch copy of the needed source files; a property-breaking edit must
    leave at least one matching obligation undischarged, a harmless edit must stay green"""
    muts = plan.get("mutations", [])
    if not muts:
        return []
    report = []
    scratch = tempfile.mkdtemp(prefix="pyvc-mut-")
    try:
        for m in muts:
            if tier == "quick" and not m.get("quick", True):
                continue
            for f in os.listdir(scratch):
                shutil.rmtree(os.path.join(scratch, f), ignore_errors=True)
            shutil.copytree(os.path.join(repo, "gaftools"), os.path.join(scratch, "gaftools"),
                            ignore=shutil.ignore_patterns("__pycache__", "*.pyc"))
            path = os.path.join(scratch, m["file"])
            src = open(path).read()
            if src.count(m["old"]) != 1:
                report.append(dict(name=m["name"], result="skipped: anchor text not found exactly once in the current tree"))
                continue
            open(path, "w").write(src.replace(m["old"], m["new"]))
            only = set(m["functions"]) if m.get("functions") else None
            outs = verify_all(plan, scratch, only=only, z3_ms=8000)
            bad = [r["name"] for o in outs for r in o["results"] if r["status"] != "discharged"]
            unsup = [o["unsupported"] for o in outs if o["status"] == "unsupported"]
            if m.get("expect") == "green":
                ok = not bad and not unsup
                report.append(dict(name=m["name"], kind="harmless", result="green" if ok else "RED", ok=ok, failing=bad[:5], unsupported=unsup[:2]))
            else:
                hit = [b for b in bad if m["expect"] in b]
                # a breaking edit is caught when an expected obligation is no longer discharged; an edit that moves the code out of the supported
                # subset / away from an anchor makes the real check exit 2 (undecided) - not a silent pass either.  Only "all green" is a miss.
                ok = bool(hit) or bool(unsup)
                report.append(dict(name=m["name"], kind="breaking", expect=m["expect"],
                                   result="detected" if hit else ("undecided-on-mutant (exit 2)" if unsup else "MISSED"),
                                   ok=ok, failing=bad[:5], unsupported=unsup[:2]))
    finally:
        shutil.rmtree(scratch, ignore_errors=True)
    return report


def run_deductive(pid, plan, repo, tier, seed, replay_dir):
    t0 = time.time()
    outs = verify_all(plan, repo)
    baseline = _baseline().get(pid, {})
    violations, undecided = [], []
    n_ob = n_dis = 0
    by_backend = {}
    by_kind = {}
    solver_time = 0.0
    samples = []
    functions = []
    assumptions = set()
    refuted_names = []
    n_dec = {}
    # ---- later stages for what z3 / cvc5 left open: (3) sound quantifier-free instantiation, (4) one retry with another seed and three
    # times the budget.  The retries run in parallel; when many obligations are open at once (a changed function, not a busy machine)
    # the retry stage is skipped: it only exists to absorb load-dependent timeouts.
    open_rs = [r for o in outs if o["status"] != "unsupported" for r in o["results"] if r["status"] == "unknown"]
    stage3 = {}
    max_relax = int(os.environ.get("PYVC_MAX_RELAX", "24"))
    for k, r in enumerate(open_rs):
        ob = r["_oblig"]
        if k >= max_relax:
            stage3[id(r)] = ("unknown", "instantiation stage skipped: more than %d obligations open in this run" % max_relax)
            continue
        try:
            stage3[id(r)] = solve.relax_check(ob.hyps, ob.goal)
        except Exception as e:  # noqa
            stage3[id(r)] = ("unknown", "relaxation failed: %s" % e)
    still = [r for r in open_rs if stage3[id(r)][0] != "discharged"]
    for seed_ in (7, 13):  # z3's quantifier heuristics depend on the seed: two more attempts with 3x the budget
        still = [r for r in still if stage3[id(r)][0] != "discharged"]
        if not still or len(still) > int(os.environ.get("PYVC_MAX_RETRIES", "16")):
            break
        jobs = [("(set-option :smt.random_seed %d)\n" % seed_ + solve.to_smt2(r["_oblig"].hyps, r["_oblig"].goal), 3 * solve.Z3_TIMEOUT_MS) for r in still]
        try:
            res4 = solve._pmap(solve._retry_work, jobs, True)
        except Exception:  # noqa
            res4 = [("unknown", "z3", 0.0, "")] * len(jobs)
        for r, (st4, be4, dt4, info4) in zip(still, res4):
            if st4 == "discharged":
                stage3[id(r)] = ("discharged", "retry with seed %d / 3x budget (%.1fs)" % (seed_, dt4))
    for o in outs:
        functions.append(dict(function=o["function"], status=o["status"], obligations=len(o["results"]), paths=o["n_paths"],
                              fragment=o.get("fragment"), lifted_asserts=o.get("lifted_asserts"), wall_s=o.get("wall_s"),
                              unsupported=o.get("unsupported")))
        for a in o["assumptions"]:
            assumptions.add(a)
        if o["status"] == "unsupported":
            undecided.append("%s: UNSUPPORTED %s" % (o["function"], o["unsupported"]))
            continue
        if not o["results"]:
            undecided.append("%s: zero obligations generated (vacuity guard)" % o["function"])
        for c in o["canaries"]:
            if not c["ok"]:
                undecided.append("%s: canary %s/%s failed: %s (contradictory contract?)" % (o["function"], c["kind"], c["label"], c["result"]))
        for r in o["results"]:
            n_ob += 1
            solver_time += r["time"] or 0
            by_kind[r["kind"]] = by_kind.get(r["kind"], 0) + 1
            if r["status"] == "discharged":
                n_dis += 1
                by_backend[r["backend"]] = by_backend.get(r["backend"], 0) + 1
                if len(samples) < 6 and r["backend"] != "simplifier":
                    samples.append(dict(obligation=r["name"], status="discharged", backend=r["backend"], time_s=r["time"]))
            elif r["status"] == "refuted":
                refuted_names.append(r["name"])
                ob = r["_oblig"]
                # counter-models are decoded (in-process re-solve, up to 20 s each) for the first three refuted obligations of a function only:
                # a changed function can refute dozens at once, and one VIOLATION line per function is kept anyway
                n_dec[o["function"]] = n_dec.get(o["function"], 0) + 1
                dec = solve.model_for(ob) if n_dec[o["function"]] <= 3 else None
                inputs = dec[0] if dec else None
                nat = native_replay(o["function"], inputs, repo) if inputs is not None else {"status": "no-model"}
                rp = os.path.join(replay_dir, "%s-%s.json" % (pid, _safe(r["name"])))
                was = baseline.get(r["name"].split("#p")[0])
                payload = dict(property=pid, obligation=r["name"], function=o["function"], kind=r["kind"], line=r["line"],
                               solver=r["backend"], solver_result="sat (obligation refuted)", model_text=r["info"],
                               decoded_inputs=inputs, native_replay=nat,
                               baseline="discharged on the committed tree" if was == "discharged" else "not in the committed baseline",
                               replay_cmd="python3-vt checks/check.py %s --replay %s" % (pid, rp))
                json.dump(payload, open(rp, "w"), indent=1, default=str)
                if nat.get("status") == "fails":
                    violations.append((rp, "obligation %s refuted; counter-model replayed on the real code: %s" % (r["name"], nat.get("detail", "")), ""))
                else:
                    violations.append((rp, "obligation %s refuted by %s (%s)" % (r["name"], r["backend"], nat.get("status")), "no-failing-input-found"))
            else:
                # not decided by z3 / cvc5.  Stage 3: sound quantifier-free instantiation (may discharge, may give a candidate model)
                st3, info3 = stage3.get(id(r), ("unknown", ""))
                if st3 == "discharged":
                    n_dis += 1
                    be = "z3-retry" if info3.startswith("retry") else "z3-instantiation"
                    r["status"], r["backend"] = "discharged", be
                    by_backend[be] = by_backend.get(be, 0) + 1
                    continue
                base_name = r["name"].split("#p")[0]
                was = baseline.get(r["name"]) or baseline.get(base_name)
                if was == "discharged" and r["status"] == "unknown":
                    # an obligation that was discharged on the committed tree no longer is: reported as a violation without input
                    rp = os.path.join(replay_dir, "%s-%s.json" % (pid, _safe(r["name"])))
                    payload = dict(property=pid, obligation=r["name"], function=o["function"], kind=r["kind"], line=r["line"],
                                   solver=r["backend"], solver_result="not discharged: %s" % r["info"],
                                   relaxation=dict(status=st3, info=info3),
                                   baseline="discharged on the committed tree (baseline_obligations.json); fails on this tree",
                                   decoded_inputs=None, native_replay={"status": "no-model"},
                                   replay_cmd="python3-vt checks/check.py %s --replay %s" % (pid, rp))
                    json.dump(payload, open(rp, "w"), indent=1, default=str)
                    refuted_names.append(r["name"])
                    violations.append((rp, "obligation %s was discharged on the committed tree and is not discharged now (%s; relaxation: %s)"
                                       % (r["name"], r["info"], st3), "no-failing-input-found"))
                else:
                    undecided.append("%s: %s (%s)" % (r["name"], r["status"], r["info"]))
    # several refuted obligations of one run: keep one VIOLATION line per function, preferring replayed ones
    violations = sorted(violations, key=lambda v: (v[2] != "", v[0]))[:3]
    mut = mutation_selftest(plan, repo, tier)
    for m in mut:
        if m.get("ok") is False:
            undecided.append("mutation self-test: %s -> %s" % (m["name"], m["result"]))
    cov = dict(
        obligations=n_ob, discharged=n_dis,
        checker_cmd="python3-vt checks/check.py %s --tier %s   (pyvc VC generator over %s working tree; z3 %s python API, timeout %d ms; /usr/bin/cvc5 for z3's unknowns)"
                    % (pid, tier, repo, _z3v(), solve.Z3_TIMEOUT_MS),
        trusted_base=sorted(set(plan.get("trusted_base", [])) | assumptions | {
            "pyvc encoding of Python (ints mathematical, identity strings as codes, functional objects without aliasing, see pyvc/ty.py)",
            "z3 / cvc5 soundness", "extraction drops: " + "; ".join(DROPPED)}),
        functions_under_contract=functions, obligations_by_kind=by_kind, discharged_by_backend=by_backend,
        solver_time_s=round(solver_time, 3), samples=samples, refuted=refuted_names, mutation_selftest=mut,
        deductive_wall_s=round(time.time() - t0, 2),
    )
    if tier == "thorough" and not violations and os.environ.get("PYVC_NO_PROBE") != "1":
        # contract-strength probe: how much of a change inside the statements under contract is noticed (information, never a verdict)
        try:
            from checks import automut
            pr = automut.probe(pid, max_per_fn=int(os.environ.get("PYVC_PROBE_PER_FN", "4")), seed=seed, repo=repo, verbose=False,
                               budget_s=float(os.environ.get("PYVC_PROBE_BUDGET_S", "900")))
            pr.pop("report", None)
            cov["contract_strength_probe"] = pr
        except Exception as e:  # noqa
            cov["contract_strength_probe"] = {"error": "%s: %s" % (type(e).__name__, e)}
    return dict(violations=violations, undecided=undecided, coverage=cov, assumptions=sorted(assumptions))


def _dedupe(vs):
    seen = set()
    out = []
    for v in sorted(vs, key=lambda x: (x[2] != "", x[0])):
        fn = os.path.basename(v[0]).split("::")[0]
        if fn in seen:
            continue
        seen.add(fn)
        out.append(v)
    return out


def _safe(s):
    return "".join(c if c.isalnum() or c in "-_." else "_" for c in s)[:150]


def _z3v():
    import z3
    return z3.get_version_string()
